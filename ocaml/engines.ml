(* Engine handlers for mvmodel: parse the harness' case encodings into the extracted types. *)
open Util
let sl = Stdlib.String.length
let split c s = Stdlib.String.split_on_char c s
let hexd s = if s = "-" then [] else bytes_of_hex s
let hexe l = if l = [] then "-" else hex_of_bytes l

(* ---- Json ---- *)
let pstate_of_int = function 0 -> JsonModel.SValue | 1 -> JsonModel.SObjectKey | 2 -> JsonModel.SObjectValue | _ -> JsonModel.SArray
let int_of_pstate = function JsonModel.SValue -> 0 | JsonModel.SObjectKey -> 1 | JsonModel.SObjectValue -> 2 | JsonModel.SArray -> 3
let gtype_of_int = function 0 -> JsonModel.GLiteral | 1 -> JsonModel.GNumber | 2 -> JsonModel.GString | 3 -> JsonModel.GStartObject
  | 4 -> JsonModel.GEndObject | 5 -> JsonModel.GStartArray | _ -> JsonModel.GEndArray
let int_of_gtype = function JsonModel.GLiteral -> 0 | JsonModel.GNumber -> 1 | JsonModel.GString -> 2 | JsonModel.GStartObject -> 3
  | JsonModel.GEndObject -> 4 | JsonModel.GStartArray -> 5 | JsonModel.GEndArray -> 6
let parse_events s =
  if s = "" then [] else
  Stdlib.List.map (fun e -> match split ':' e with
    | [a; b; c] -> { JsonModel.e_state = pstate_of_int (int_of_string a); e_gt = gtype_of_int (int_of_string b); e_text = hexd c }
    | _ -> failwith "event") (split ',' s)
let show_events evs =
  Stdlib.String.concat "," (Stdlib.List.map (fun e ->
    Printf.sprintf "%d:%d:%s" (int_of_pstate e.JsonModel.e_state) (int_of_gtype e.JsonModel.e_gt) (hexe e.JsonModel.e_text)) evs)
let parse_tree s =
  let toks = ref (Stdlib.List.filter (fun x -> x <> "") (split ' ' s)) in
  let next () = match !toks with t :: r -> toks := r; t | [] -> failwith "tree" in
  let rec value () =
    match next () with
    | "L" -> JsonSpec.JLit (hexd (next ()))
    | "N" -> JsonSpec.JNum (hexd (next ()))
    | "S" -> JsonSpec.JStr (hexd (next ()))
    | "A" -> let n = int_of_string (next ()) in JsonSpec.JArr (Stdlib.List.init n (fun _ -> value ()))
    | "O" -> let n = int_of_string (next ()) in
             JsonSpec.JObj (Stdlib.List.init n (fun _ -> let k = hexd (next ()) in let v = value () in (k, v)))
    | _ -> failwith "tree tag" in
  value ()

(* ---- Dispatch ---- *)
let canon_params (ps : (BinNums.coq_Z list * BinNums.coq_Z list) list) =
  (* Go map semantics: later duplicates win; then sort by key *)
  let tbl = Hashtbl.create 8 in
  Stdlib.List.iter (fun (k, v) -> Hashtbl.replace tbl (string_of_bytes k) (k, v)) ps;
  let l = Hashtbl.fold (fun ks kv acc -> (ks, kv) :: acc) tbl [] in
  let l = Stdlib.List.sort (fun (a, _) (b, _) -> compare a b) l in
  Stdlib.String.concat "," (Stdlib.List.map (fun (_, (k, v)) -> hexe k ^ "=" ^ hexe v) l)
let parse_history s =
  if s = "" then [] else
  Stdlib.List.map (fun o -> match split ':' o with
    | ["L"; k; id] -> DispatchModel.AddLit (hexd k, nat_of_int (int_of_string id))
    | ["P"; p; id] -> DispatchModel.AddPat (nat_of_int (int_of_string p), nat_of_int (int_of_string id))
    | _ -> failwith "history") (split ',' s)
let dispatch hist mthex truth =
  let reg = Stdlib.List.fold_left DispatchModel.reg_step DispatchModel.reg_init (parse_history hist) in
  let ((mt, _hasmap), params) = DispatchModel.mediatype (hexd mthex) in
  let pmatch p _ = let i = int_of_nat p in truth <> "-" && i < sl truth && (Stdlib.String.get truth (i)) = '1' in
  let served = DispatchModel.served pmatch reg mt in
  let m = DispatchModel.match_q pmatch reg mt in
  Printf.sprintf "served=%s mt=%s params=%s match=%s"
    (match served with Some id -> string_of_int (int_of_nat id) | None -> "none") (hexe mt)
    (match served with Some _ -> canon_params params | None -> "")
    (match m with DispatchModel.MLit id -> Printf.sprintf "L:%d" (int_of_nat id)
                | DispatchModel.MPat (p, id) -> Printf.sprintf "P:%d:%d" (int_of_nat p) (int_of_nat id)
                | DispatchModel.MNone -> "N")
let mediatype_line h =
  let ((mt, hasmap), params) = DispatchModel.mediatype (hexd h) in
  Printf.sprintf "mt=%s hasmap=%s params=%s" (hexe mt) (if hasmap then "1" else "0") (canon_params params)

(* ---- TokenBuffer ---- *)
let tokbuf toks ops =
  let l = if toks = "" then [] else Stdlib.List.map (fun t -> z_of_int (int_of_string t)) (split ',' toks) in
  let z = ref (BufModel.tb_init l) in
  let outs = ref [] in
  (try
    Stdlib.List.iter (fun o ->
      let r = if o = "S" then BufModel.shift !z
              else BufModel.peek !z (nat_of_int (int_of_string (Stdlib.String.sub o 1 (sl o - 1)))) in
      match r with
      | Some (t, z') -> z := z'; outs := string_of_int (int_of_z t) :: !outs
      | None -> outs := "PANIC" :: !outs; raise Exit) (if ops = "" then [] else split ',' ops)
  with Exit -> ());
  Stdlib.String.concat "," (Stdlib.List.rev !outs)

(* ---- Stream ---- *)
let parse_script s =
  if s = "" then [] else
  Stdlib.List.map (fun t ->
    if (Stdlib.String.get t (0)) = 'C' then StreamModel.Chunk (hexd (Stdlib.String.sub t 1 (sl t - 1)))
    else StreamModel.Fail (nat_of_int (int_of_string (Stdlib.String.sub t 1 (sl t - 1))))) (split ',' s)
let stream_case entry probe writes ending script wf =
  let ws = if writes = "" then [] else Stdlib.List.map hexd (split ',' writes) in
  let fin = if ending = "EOF" then StreamModel.EndEOF
            else if Stdlib.String.length ending > 3 && Stdlib.String.sub ending 0 3 = "LEX" then StreamModel.EndLexErr (nat_of_int 2)
            else StreamModel.EndEarly (nat_of_int 2) in
  let rn = { StreamModel.writes = ws; fin = fin } in
  let sk = { StreamModel.final_probe = (probe = "1"); lexer_err_returned = true } in
  let f _ = rn in
  let ore e = { StreamModel.writes = []; fin = StreamModel.EndLexErr e } in
  let wfo = if wf = "0" then None else Some (nat_of_int (int_of_string wf)) in
  let sc = parse_script script in
  let (r, out) =
    match entry with
    | "minify" -> StreamModel.entry_minify sk f ore sc wfo
    | "reader" -> StreamModel.entry_reader sk f ore sc
    | _ -> StreamModel.entry_minify sk f ore sc wfo in
  (match r with StreamModel.ROk -> "ok" | StreamModel.RErr e -> "E" ^ string_of_int (int_of_nat e)) ^ " " ^ hexe out


(* ---- Cli ---- *)
let zeros n = Stdlib.List.init n (fun _ -> BinNums.Z0)
let cliops kind dst sizes =
  let outs = if sizes = "" || sizes = "-" then [] else Stdlib.List.map (fun x -> zeros (int_of_string x)) (split ',' sizes) in
  let d = hexd dst in
  if kind = "none" then "" else
  let sh = match kind with
    | "inplace" -> CliModel.InPlace (d, outs)
    | "inplacefail" -> CliModel.InPlaceWriteFails (d, outs)
    | "separate" -> CliModel.Separate ([], d, outs)
    | "bundleonto" -> CliModel.BundleOnto ([], d, outs)
    | _ -> failwith "shape" in
  Stdlib.String.concat "|" (Stdlib.List.map (function
    | CliModel.Rename (a, b) -> "rename " ^ string_of_bytes a ^ " " ^ string_of_bytes b
    | CliModel.OpenTrunc p -> "openw " ^ string_of_bytes p
    | CliModel.WriteApp (p, bs) -> Printf.sprintf "write %s %d" (string_of_bytes p) (Stdlib.List.length bs)
    | CliModel.Unlink p -> "unlink " ^ string_of_bytes p) (CliModel.ops_of sh))
let concat_case n fileshex sephex caps =
  let files = if int_of_string n = 0 then [] else Stdlib.List.map hexd (split ',' fileshex) in
  let r = ref (ConcatModel.cr_init files (hexd sephex)) in
  let res = ref [] in
  (try
    Stdlib.List.iter (fun c ->
      let k = nat_of_int (int_of_string c) in
      match ConcatModel.cread (ConcatModel.read_fuel !r) !r k k with
      | None -> res := "OUTOFFUEL" :: !res; raise Exit
      | Some ((d, e), r') ->
        r := r';
        (match e with
         | ConcatModel.RNil -> res := ("nil:" ^ hexe d) :: !res
         | ConcatModel.REOF -> res := ("eof:" ^ hexe d) :: !res; raise Exit))
      (if caps = "" then [] else split ',' caps)
  with Exit -> ());
  Stdlib.String.concat "," (Stdlib.List.rev !res)

(* ---- DataUri ---- *)
let b2s b = if b then "1" else "0"


(* ---- Http (responseWriter / Middleware) ---- *)
let http_case tbl ext script =
  let entries = if tbl = "" then [] else Stdlib.List.map (fun e ->
      match split '=' e with
      | [k; v] -> (k, v)
      | _ -> failwith "http table") (split ',' tbl) in
  let lookup mt = Stdlib.List.assoc_opt (hexe mt) entries in
  let ops = if script = "" then [] else Stdlib.List.map (fun o ->
      let rest = Stdlib.String.sub o 1 (sl o - 1) in
      match (Stdlib.String.get o (0)) with
      | 'T' -> StreamHttp.SetCT (hexd (if rest = "" then "-" else rest))
      | 'L' -> StreamHttp.SetCL
      | 'H' -> StreamHttp.WriteHeader
      | 'W' -> StreamHttp.Write (hexd (if rest = "" then "-" else rest))
      | _ -> failwith "hop") (split ',' script) in
  let written = Stdlib.List.concat (Stdlib.List.map (function StreamHttp.Write b -> b | _ -> []) ops) in
  let served mt = match lookup mt with Some v when v <> "N" -> Some Datatypes.O | _ -> None in
  let payload mt = match lookup mt with
    | Some v when v <> "N" -> (match split ':' v with [f; o] -> (f = "S1", hexd o) | [f] -> (f = "S1", []) | _ -> failwith "http entry")
    | _ -> (false, []) in
  let run _ mt inp = if inp = written then snd (payload mt) else bytes_of_string "PIPED-MISMATCH" in
  let runerr _ mt _ = fst (payload mt) in
  let e = hexd ext in
  let s = StreamHttp.serve served e run ops in
  let err = StreamHttp.close_err served e runerr ops in
  let cl = match s.StreamHttp.sent with Some b -> b | None -> s.StreamHttp.cl in
  Printf.sprintf "cl=%s err=%s body=%s" (b2s cl) (b2s err) (hexe s.StreamHttp.body)


(* ---- Xml ---- *)
let xtt_of_int = function 0 -> XmlModel.XError | 1 -> XmlModel.XComment | 2 -> XmlModel.XDoctype | 3 -> XmlModel.XCData | 4 -> XmlModel.XText
  | 5 -> XmlModel.XStartTag | 6 -> XmlModel.XStartTagPI | 7 -> XmlModel.XAttribute | 8 -> XmlModel.XStartTagClose
  | 9 -> XmlModel.XStartTagCloseVoid | 10 -> XmlModel.XStartTagClosePI | _ -> XmlModel.XEndTag
let xml_case keep toks =
  let ts = if toks = "" then [] else Stdlib.List.map (fun t -> match split ':' t with
    | [a; d; x; v] -> { XmlModel.tt = xtt_of_int (int_of_string a); data = hexd d; text = hexd x; attrval = hexd v }
    | _ -> failwith "xml token") (split ',' toks) in
  hexe (XmlModel.xml_minify (keep = "1") ts)

(* ---- Html ---- *)
let htt_of_int = function 0 -> HtmlWs.HError | 1 -> HtmlWs.HComment | 2 -> HtmlWs.HDoctype | 3 -> HtmlWs.HStartTag | 4 -> HtmlWs.HEndTag
  | 5 -> HtmlWs.HText | 6 -> HtmlWs.HSvg | 7 -> HtmlWs.HMath | 8 -> HtmlWs.HTemplate | 9 -> HtmlWs.HStartTagClose | _ -> HtmlWs.HOther
let htmlws_toks toks = if toks = "" then [] else Stdlib.List.map (fun t -> match split ':' t with
    | [a; d; x] -> { HtmlWs.tt = htt_of_int (int_of_string a); data = hexd d; text = hexd x; has_template = false }
    | _ -> failwith "html token") (split ',' toks)
let htmlws_case opts toks =
  let ts = htmlws_toks toks in
  let o = { HtmlWs.keepws = Stdlib.String.get opts 0 = '1'; keep_end_tags = Stdlib.String.get opts 1 = '1'; keep_doc_tags = Stdlib.String.get opts 2 = '1' } in
  hexe (HtmlWs.html_minify o ts)

let contains_sub (s : string) (sub : string) =
  let n = Stdlib.String.length s and m = Stdlib.String.length sub in
  let rec go i = i + m <= n && (Stdlib.String.sub s i m = sub || go (i + 1)) in go 0
let htmlreg_case opts bits toks =
  let ts = htmlws_toks toks in
  let b = int_of_string bits in
  let o = { HtmlWs.keepws = Stdlib.String.get opts 0 = '1'; keep_end_tags = Stdlib.String.get opts 1 = '1'; keep_doc_tags = Stdlib.String.get opts 2 = '1' } in
  let stub tag = fun payload ->
    let p = string_of_bytes payload in
    if contains_sub p "FAIL" then None else Some (bytes_of_string (tag ^ "(" ^ p ^ ")")) in
  let names = [ (HtmlEmbed.mt_js, "J"); (HtmlEmbed.mt_css, "C"); (HtmlEmbed.mt_html, "H"); (HtmlEmbed.mt_svg, "V"); (HtmlEmbed.mt_math, "M") ] in
  let look mt =
    let rec go i = function
      | [] -> None
      | (n, tag) :: r -> if n = mt then (if b land (1 lsl i) <> 0 then Some (stub tag) else None) else go (i + 1) r in
    go 0 names in
  match HtmlEmbed.html_minify_reg look o ts with Some out -> hexe out | None -> "ERR"

(* ---- Js rename ---- *)
let js_keywords : BinNums.coq_Z list list ref = ref []
let alphabets alpha =
  if alpha = "1" then (JsTables_gen.js_identStart_alpha, JsTables_gen.js_identContinue_alpha)
  else (JsTables_gen.js_identStart_freq, JsTables_gen.js_identContinue_freq)
let intlist s = if s = "" then [] else Stdlib.List.map (fun x -> nat_of_int (int_of_string x)) (split ',' s)
let rename_case alpha scopes origs =
  let (st, ct) = alphabets alpha in
  let prog = if scopes = "" then [] else Stdlib.List.map (fun sc -> match split '|' sc with
    | [p; r; d; u] -> { RenameModel.sparent = (if p = "-1" then None else Some (nat_of_int (int_of_string p)));
                        sdeclared = intlist d; sundeclared = intlist u; srename = (r = "1") }
    | _ -> failwith "scope") (split ';' scopes) in
  let on = Array.of_list (if origs = "" then [] else Stdlib.List.map hexd (split ',' origs)) in
  let orig v = let i = int_of_nat v in if i < Array.length on then on.(i) else [] in
  let fin = RenameModel.rename_program st ct !js_keywords orig prog in
  Stdlib.String.concat "," (Stdlib.List.init (Array.length on) (fun i -> hexe (fin (nat_of_int i))))


(* ---- Svg path separators ---- *)
let pathsep_case desc =
  let items = if desc = "" then [] else Stdlib.List.map (fun d ->
      let rest = Stdlib.String.sub d 1 (sl d - 1) in
      if (Stdlib.String.get d (0)) = 'F' then PathSep.IFlag (rest = "1") else PathSep.INum (hexd rest)) (split ',' desc) in
  hexe (PathSep.emit PathSep.st_cmd items)


(* ---- Js printer (parenthesis decisions) ---- *)
let js_surface = [
  "EqToken","="; "AddEqToken","+="; "SubEqToken","-="; "MulEqToken","*="; "DivEqToken","/="; "ModEqToken","%="; "ExpEqToken","**=";
  "LtLtEqToken","<<="; "GtGtEqToken",">>="; "GtGtGtEqToken",">>>="; "BitAndEqToken","&="; "BitXorEqToken","^="; "BitOrEqToken","|=";
  "AndEqToken","&&="; "OrEqToken","||="; "NullishEqToken","??="; "CommaToken",","; "NullishToken","??"; "OrToken","||"; "AndToken","&&";
  "BitOrToken","|"; "BitXorToken","^"; "BitAndToken","&"; "EqEqToken","=="; "NotEqToken","!="; "EqEqEqToken","==="; "NotEqEqToken","!==";
  "LtToken","<"; "LtEqToken","<="; "GtToken",">"; "GtEqToken",">="; "LtLtToken","<<"; "GtGtToken",">>"; "GtGtGtToken",">>>";
  "AddToken","+"; "SubToken","-"; "MulToken","*"; "DivToken","/"; "ModToken","%"; "ExpToken","**";
  "BitNotToken","~"; "TypeofToken","typeof"; "PosToken","+"; "NegToken","-"; "PreIncrToken","++"; "PreDecrToken","--";
  "PostIncrToken","++"; "PostDecrToken","--"; "NotToken","!"; "VoidToken","void"; "DeleteToken","delete"; "AwaitToken","await"; "InToken","in"; "InstanceofToken","instanceof" ]
let rec jsprint_case_gen ?(top = PrintModel.coq_OpAssign) ?(bytes_out = false) rw sx =
  let toks = ref (Stdlib.List.filter (fun x -> x <> "") (split ' ' sx)) in
  let next () = match !toks with t :: r -> toks := r; t | [] -> failwith "jsprint sexpr" in
  let rec parse () =
    match next () with
    | "A" -> PrintModel.EAtom (coq_string (next ()))
    | "T" -> PrintModel.EConst (match next () with "true" -> PrintModel.CTrue | "false" -> PrintModel.CFalse | "undefined" -> PrintModel.CUndefined | _ -> PrintModel.CInfinity)
    | "G" -> PrintModel.EGroup (parse ())
    | "B" -> let op = coq_string (next ()) in let x = parse () in let y = parse () in PrintModel.EBin (op, x, y)
    | "P" -> let op = coq_string (next ()) in PrintModel.EPre (op, parse ())
    | "Q" -> let op = coq_string (next ()) in PrintModel.EPost (op, parse ())
    | "C" -> let c = parse () in let x = parse () in let y = parse () in PrintModel.ECond (c, x, y)
    | "K" -> let f = parse () in let a = parse () in PrintModel.ECall (f, a)
    | "D" -> let n = coq_string (next ()) in let fl = next () = "1" in let x = parse () in PrintModel.EDot (x, n, fl)
    | "I" -> let fl = next () = "1" in let x = parse () in let i = parse () in PrintModel.EIndex (x, i, fl)
    | t -> failwith ("jsprint tag " ^ t) in
  let e = parse () in
  let out = if rw then RewriteModel.print_rw PrintGen.coq_T_gen (nat_of_int 200) top e else PrintGen.print_gen PrintModel.coq_OpAssign e in
  if bytes_out then hexe (PrintRender.render out) else
  Stdlib.String.concat " " (Stdlib.List.map (function
    | PrintModel.TAtom s -> ocaml_string s
    | PrintModel.TOp n -> (try Stdlib.List.assoc (ocaml_string n) js_surface with Not_found -> "?" ^ ocaml_string n)
    | PrintModel.TQ -> "?" | PrintModel.TColon -> ":" | PrintModel.TL -> "(" | PrintModel.TR -> ")"
    | PrintModel.TLB -> "[" | PrintModel.TRB -> "]" | PrintModel.TDot -> ".") out)

(* ---- Js statement optimiser (Js/StmtModel.v) ---- *)
let lexback_report_hyp = (try Sys.getenv "MV_LEXBACK_HYP" = "1" with Not_found -> false)
let jsstmt_case ?(print = false) ?(readback = false) ?(bytes_out = false) ?(lexback = false) fn sx =
  let toks = ref (Stdlib.List.filter (fun x -> x <> "") (split ' ' sx)) in
  let next () = match !toks with t :: r -> toks := r; t | [] -> failwith "jsstmt sexpr" in
  let rec pe () =
    match next () with
    | "A" -> PrintModel.EAtom (coq_string (next ()))
    | "T" -> PrintModel.EConst (match next () with "true" -> PrintModel.CTrue | "false" -> PrintModel.CFalse | "undefined" -> PrintModel.CUndefined | _ -> PrintModel.CInfinity)
    | "G" -> PrintModel.EGroup (pe ())
    | "B" -> let op = coq_string (next ()) in let x = pe () in let y = pe () in PrintModel.EBin (op, x, y)
    | "P" -> let op = coq_string (next ()) in PrintModel.EPre (op, pe ())
    | "Q" -> let op = coq_string (next ()) in PrintModel.EPost (op, pe ())
    | "C" -> let c = pe () in let x = pe () in let y = pe () in PrintModel.ECond (c, x, y)
    | "K" -> let f = pe () in let a = pe () in PrintModel.ECall (f, a)
    | t -> failwith ("jsstmt expr tag " ^ t) in
  let rec ps () =
    match next () with
    | "E" -> StmtModel.SExpr (pe ())
    | "F0" -> let c = pe () in let b = ps () in StmtModel.SIf (c, b, None)
    | "F1" -> let c = pe () in let b = ps () in let e = ps () in StmtModel.SIf (c, b, Some e)
    | "R0" -> StmtModel.SReturn None
    | "R1" -> StmtModel.SReturn (Some (pe ()))
    | "W" -> StmtModel.SThrow (pe ())
    | "J" -> StmtModel.SBranch (coq_string (next ()))
    | "N" -> StmtModel.SEmpty
    | "BL" -> StmtModel.SBlock (pl ())
    | "O" -> StmtModel.SOpaque (coq_string (next ()))
    | t -> failwith ("jsstmt stmt tag " ^ t)
  and pl () = let n = int_of_string (next ()) in Stdlib.List.init n (fun _ -> ()) |> Stdlib.List.map (fun () -> ps ()) in
  (match next () with "L" -> () | _ -> failwith "jsstmt list");
  let l = pl () in
  if readback then begin
    (* the statement of Js/StmtPrintProofs.parse_print evaluated on this case: the optimised list is printable, and parsing
       its printed tokens gives the tree the printer means *)
    let t = PrintGen.coq_T_gen and ef = nat_of_int 200 in
    let o = StmtModel.optimize_body t (fn = "1") l in
    if not (StmtParse.printable_list t ef o) then "not-printable"
    else if not (StmtParse.else_safe_list t o) then "not-else-safe"
    else match StmtParse.parse_program (StmtPrint.print_list t ef o) with
      | None -> "parse-fails"
      | Some p -> if p = StmtParse.canon_list t ef o then "ok" else "other-tree"
  end else
  if lexback then begin
    (* the statement of Props/C01 function_body_bytes_lex_back_closed evaluated on this case; "hyp" = a hypothesis does not
       hold (an atom that is not an identifier, a label, ...): the theorem says nothing about the case *)
    let t = PrintGen.coq_T_gen and ef = nat_of_int 200 in
    let o = StmtModel.optimize_body t (fn = "1") l in
    if not (StmtRenderClosed.stmts_okb l && StmtRenderClosed.stmts_fuel_okb t ef o) then (if lexback_report_hyp then "hyp" else "ok")
    else if StmtRenderProofs.lexs_bytes (StmtRender.render_body t ef (fn = "1") l) = Some (StmtRenderProofs.stok_surfaces (StmtPrint.print_body t ef (fn = "1") l)) then "ok"
    else "BAD-lex"
  end else
  if bytes_out then hexe (StmtRender.render_body PrintGen.coq_T_gen (nat_of_int 200) (fn = "1") l) else
  if print then begin
    let toks = StmtPrint.print_body PrintGen.coq_T_gen (nat_of_int 200) (fn = "1") l in
    let etok = function
      | PrintModel.TAtom s -> ocaml_string s
      | PrintModel.TOp n -> (try Stdlib.List.assoc (ocaml_string n) js_surface with Not_found -> "?" ^ ocaml_string n)
      | PrintModel.TQ -> "?" | PrintModel.TColon -> ":" | PrintModel.TL -> "(" | PrintModel.TR -> ")"
      | PrintModel.TLB -> "[" | PrintModel.TRB -> "]" | PrintModel.TDot -> "." in
    Stdlib.String.concat " " (Stdlib.List.concat_map (function
      | StmtPrint.SK s -> [ocaml_string s]
      | StmtPrint.SE e -> Stdlib.List.map etok e) toks)
  end else
  let out = StmtModel.optimize_body PrintGen.coq_T_gen (fn = "1") l in
  let b = Buffer.create 256 in
  let w s = Buffer.add_string b s; Buffer.add_char b ' ' in
  let rec we = function
    | PrintModel.EAtom s -> w "A"; w (ocaml_string s)
    | PrintModel.EConst k -> w "T"; w (match k with PrintModel.CTrue -> "true" | PrintModel.CFalse -> "false" | PrintModel.CUndefined -> "undefined" | PrintModel.CInfinity -> "Infinity")
    | PrintModel.EGroup x -> w "G"; we x
    | PrintModel.EBin (op, x, y) -> w "B"; w (ocaml_string op); we x; we y
    | PrintModel.EPre (op, x) -> w "P"; w (ocaml_string op); we x
    | PrintModel.EPost (op, x) -> w "Q"; w (ocaml_string op); we x
    | PrintModel.ECond (c, x, y) -> w "C"; we c; we x; we y
    | PrintModel.ECall (f, a) -> w "K"; we f; we a
    | _ -> w "?" in
  let rec ws = function
    | StmtModel.SExpr e -> w "E"; we e
    | StmtModel.SIf (c, bd, None) -> w "F0"; we c; ws bd
    | StmtModel.SIf (c, bd, Some e) -> w "F1"; we c; ws bd; ws e
    | StmtModel.SReturn None -> w "R0"
    | StmtModel.SReturn (Some e) -> w "R1"; we e
    | StmtModel.SThrow e -> w "W"; we e
    | StmtModel.SBranch k -> w "J"; w (ocaml_string k)
    | StmtModel.SEmpty -> w "N"
    | StmtModel.SBlock l -> wl "BL" l
    | StmtModel.SOpaque i -> w "O"; w (ocaml_string i)
  and wl tag l = w tag; w (string_of_int (Stdlib.List.length l)); Stdlib.List.iter ws l in
  wl "L" out;
  Stdlib.String.trim (Buffer.contents b)

let register (reg : string -> (string list -> string) -> unit) =
  reg "json_events" (function [k; evs] -> hexe (JsonModel.json_minify_events (k = "1") (parse_events evs))
                            | [k] -> hexe (JsonModel.json_minify_events (k = "1") []) | _ -> "BADARGS");
  reg "dispatch" (function [h; m; t] -> dispatch h m t | _ -> "BADARGS");
  reg "mediatype" (function [m] -> mediatype_line m | [] -> mediatype_line "-" | _ -> "BADARGS");
  reg "needs_escape" (function [c] -> b2s (DataUriModel.needs_escape (Stdlib.List.hd (bytes_of_hex c))) | _ -> "BADARGS");
  reg "b64" (function [d] -> hexe (DataUriModel.b64_encode (hexd d)) | _ -> "BADARGS");
  reg "datauri" (function [o; m; d] -> hexe (DataUriModel.datauri_encode (hexd o) (hexd m) (hexd d)) | _ -> "BADARGS");
  reg "mediatype_min" (function [m] -> hexe (DataUriModel.mediatype_min (hexd m)) | _ -> "BADARGS");
  reg "stream" (function [e; p; w; en; sc; wf] -> stream_case e p w en sc wf | _ -> "BADARGS");
  reg "cliops" (function [k; d; z] -> cliops k d z | [k; d] -> cliops k d "" | _ -> "BADARGS");
  reg "concat" (function [n; f; s; c] -> concat_case n f s c | _ -> "BADARGS");
  reg "http" (function [t; e; sc] -> http_case t e sc | [t; e] -> http_case t e "" | _ -> "BADARGS");
  reg "xml" (function [k; t] -> xml_case k t | [k] -> xml_case k "" | _ -> "BADARGS");
  reg "glob" (function [g; paths] | [g; paths; _] ->
      let gb = hexd g in
      let ps = if paths = "" || paths = "-" then [] else Stdlib.List.map hexd (split ',' paths) in
      hexe (GlobModel.compile_src gb) ^ " " ^ Stdlib.String.concat "" (Stdlib.List.map (fun p -> if GlobModel.glob_matches gb p then "1" else "0") ps)
    | [g] -> hexe (GlobModel.compile_src (hexd g)) ^ " "
    | _ -> "BADARGS");
  reg "path" (function [r; i; o] ->
      let hd s = if s = "-" || s = "" then [] else hexd s in
      let root = hd r and input = hd i and output = hd o in
      let ob = function None -> "!" | Some b -> hexe b in
      Stdlib.String.concat " " [hexe (PathModel.clean root); hexe (PathModel.dir root); hexe (PathModel.join [root; input; output]);
                                ob (PathModel.rel root input); ob (PathModel.new_task_dst root input output)]
    | _ -> "BADARGS");
  reg "filter" (function [ms; fs; paths] ->
      let lst s = if s = "" || s = "-" then [] else Stdlib.List.map hexd (split ',' s) in
      let filters = Stdlib.List.map (fun f -> match f with
        | c :: r -> (c = z_of_int 43, r)
        | [] -> (true, [])) (lst fs) in
      Stdlib.String.concat "" (Stdlib.List.map (fun p -> if GlobModel.file_filter (lst ms) filters p then "1" else "0") (lst paths))
    | _ -> "BADARGS");
  reg "cssdim" (function [kind; k; drops; tok] ->
      let keep = (k = "1") and b = hexd tok and d = (drops = "1") in
      let optzero dim = Stdlib.List.exists (fun (u, _) -> u = dim) Tables_gen.css_zero_dimensions in
      hexe (match kind with
        | "num" -> CssDim.number_token keep false b
        | "int" -> CssDim.number_token keep true b
        | "pct" -> CssDim.percentage_token keep b
        | "dim" -> CssDim.dimension_token keep optzero false d b
        | _ -> CssDim.dimension_token keep optzero true d b)
    | _ -> "BADARGS");
  reg "cssalpha" (function [k; pc; tok] ->
      let keep = (k = "1") and is_pct = (pc = "1") and b = hexd tok in
      let t1 = if is_pct then CssDim.percentage_token keep b else CssDim.number_token keep false b in
      let (_, d) = CssAlpha.min_number_percentage is_pct t1 in
      hexe d
    | _ -> "BADARGS");
  reg "csshex" (function [v] -> hexe (CssColor.hex_color_minify Tables_gen.css_shorten_color_hex (hexd v)) | _ -> "BADARGS");
  reg "htmlws" (function [o; t] -> htmlws_case o t | [o] -> htmlws_case o "" | _ -> "BADARGS");
  reg "htmlattrout" (function [o; tag; attrs] ->
      let opts = { HtmlAttrLoop.keep_default = Stdlib.String.get o 0 = '1'; keep_quotes = Stdlib.String.get o 1 = '1' } in
      let al = Stdlib.List.map (fun a -> match split ':' a with
        | [n; e; t; q] -> { HtmlAttrLoop.a_name = hexd n; a_val_ent = hexd e; a_val_trim = hexd t; a_quote = z_of_int (int_of_string q) }
        | _ -> failwith "htmlattrout attr") (split ',' attrs) in
      hexe (HtmlAttrLoop.attrs_out opts (bytes_of_string tag) al)
    | _ -> "BADARGS");
  reg "htmltype" (function [tag; ty; cands] ->
      let cl = split '\n' (string_of_bytes (hexd cands)) in
      (match HtmlSelect.html_select (bytes_of_string tag) (hexd ty) with
       | Some mt -> let m = string_of_bytes mt in if Stdlib.List.mem m cl then m else "-"
       | None -> "-")
    | _ -> "BADARGS");
  reg "htmlreg" (function [o; bits; t] -> htmlreg_case o bits t | [o; bits] -> htmlreg_case o bits "" | _ -> "BADARGS");
  reg "htmlwf" (function [_; t] -> if HtmlWsWf.wf_tokens_b (htmlws_toks t) then "1" else "0" | [_] -> "1" | _ -> "BADARGS");
  reg "htmlattr" (function [v; q; m] -> hexe (HtmlAttr.html_escape_attr_val (hexd v) (z_of_int (int_of_string q)) (m = "1")) | _ -> "BADARGS");
  reg "xml_escattr" (function [v] -> hexe (XmlModel.escape_attr_val (hexd v)) | _ -> "BADARGS");
  reg "xml_esccdata" (function [v] -> let (e, u) = XmlModel.escape_cdata_val (hexd v) in (if u then "true " else "false ") ^ hexe e | _ -> "BADARGS");
  reg "ws_collapse" (function [v] -> hexe (Ws.collapse (hexd v)) | _ -> "BADARGS");
  reg "rename_keywords" (function [k] -> js_keywords := Stdlib.List.map hexd (split ',' k); Printf.sprintf "ok %d" (Stdlib.List.length !js_keywords) | _ -> "BADARGS");
  reg "get_name" (function [a; i] -> let (st, ct) = alphabets a in hexe (RenameModel.get_name st ct (z_of_int (int_of_string i))) | _ -> "BADARGS");
  reg "rename" (function [a; sc; o] -> rename_case a sc o | [a; sc] -> rename_case a sc "" | _ -> "BADARGS");
  reg "pathsep" (function [d] -> pathsep_case d | [] -> pathsep_case "" | _ -> "BADARGS");
  reg "jsprint" (function [sx] -> jsprint_case_gen false sx | _ -> "BADARGS");
  reg "jsrw" (function [sx] -> jsprint_case_gen true sx | _ -> "BADARGS");
  reg "jsstmt" (function [fn; sx] -> jsstmt_case fn sx | _ -> "BADARGS");
  reg "jsnum" (function [kind; lit] ->
      let b = hexd lit in
      hexe (match kind with
        | "binary" -> NumLit.binary_number b
        | "octal" -> NumLit.octal_number b
        | "hexadecimal" -> NumLit.hexadecimal_number b
        | _ -> NumLit.decimal_number b)
    | _ -> "BADARGS");
  reg "jsstr" (function [t; lit] -> hexe (StrLit.minify_string (hexd lit) (t = "1")) | [t] -> hexe (StrLit.minify_string [] (t = "1")) | _ -> "BADARGS");
  (* the statement of the string-value theorem evaluated on one literal: valid input => output is a literal of the chosen
     delimiter, valid (also in strict-mode code when the input was), with the same value *)
  reg "jsstrv" (function [t; lit] ->
      let l = hexd lit in
      let body l = match l with [] -> None | q :: r -> (match Stdlib.List.rev r with q2 :: rb when q2 = q -> Some (q, Stdlib.List.rev rb) | _ -> None) in
      (match body l with
       | None -> "ok"
       | Some (q, b) ->
         if q = z_of_int 96 then "ok" else
         (match StrLitSpec.decode true q b with
          | None -> "ok"
          | Some v ->
            let out = StrLit.minify_string l (t = "1") in
            (match body out with
             | None -> "BAD-output-shape"
             | Some (q', b') ->
               let bt = z_of_int 96 in
               let strict_in = StrLitSpec.decode false q b <> None in
               (match StrLitSpec.decode (q' <> bt) q' b' with
                | None -> "BAD-output-invalid"
                | Some v' -> if v <> v' then "BAD-value"
                             else if strict_in && StrLitSpec.decode false q' b' = None then "BAD-strict" else "ok"))))
    | _ -> "ok");
  (* the literal mergeBinaryExpr builds for l1 + l2 + ... *)
  reg "jsstrcat" (function [lits] -> hexe (StrCat.merge_strings (Stdlib.List.map hexd (split ',' lits))) | _ -> "BADARGS");
  (* the statement "the merged and minified literal has the concatenation of the parts' values" evaluated on one case;
     "ok" also when a part is not a valid literal (nothing is claimed then) *)
  reg "jsstrcatv" (function [t; lits] ->
      let ls = Stdlib.List.map hexd (split ',' lits) in
      let body l = match l with [] -> None | q :: r -> (match Stdlib.List.rev r with q2 :: rb when q2 = q -> Some (q, Stdlib.List.rev rb) | _ -> None) in
      let vals = Stdlib.List.map (fun l -> match body l with Some (q, b) when q <> z_of_int 96 -> StrLitSpec.decode true q b | _ -> None) ls in
      if Stdlib.List.exists (fun v -> v = None) vals then "ok" else
      let want = Stdlib.List.concat (Stdlib.List.map (function Some v -> v | None -> []) vals) in
      let out = StrLit.minify_string (StrCat.merge_strings ls) (t = "1") in
      (match body out with
       | None -> "BAD-output-shape"
       | Some (q', b') ->
         (match StrLitSpec.decode (q' <> z_of_int 96) q' b' with
          | None -> "BAD-output-invalid"
          | Some v' -> if v' = want then "ok" else "BAD-value"))
    | _ -> "ok");
  reg "jsstmtr" (function [sx] -> jsstmt_case ~readback:true "1" sx | _ -> "BADARGS");
  reg "jsstmtlx" (function [sx] -> jsstmt_case ~lexback:true "1" sx | _ -> "BADARGS");
  reg "jsstmtpb" (function [sx] -> jsstmt_case ~bytes_out:true "1" sx | _ -> "BADARGS");
  reg "jsstmtp" (function [sx] -> jsstmt_case ~print:true "1" sx | _ -> "BADARGS");
  reg "jsrw0" (function [sx] -> jsprint_case_gen ~top:PrintModel.coq_OpExpr true sx | _ -> "BADARGS");
  reg "jsprintb" (function [sx] -> jsprint_case_gen ~bytes_out:true false sx | _ -> "BADARGS");
  reg "jsrwb" (function [sx] -> jsprint_case_gen ~bytes_out:true true sx | _ -> "BADARGS");
  reg "jsrw0b" (function [sx] -> jsprint_case_gen ~top:PrintModel.coq_OpExpr ~bytes_out:true true sx | _ -> "BADARGS");
  reg "cssbox" (function [v] -> Stdlib.String.concat "," (Stdlib.List.map (fun n -> string_of_int (int_of_nat n)) (CssBox.box_collapse_nat (intlist v))) | _ -> "BADARGS");
  reg "tokbuf" (function [t; o] -> tokbuf t o | _ -> "BADARGS");
  reg "json_parse" (function [t] | [t; _] ->
      let (evs, ok) = JsonParse.parse_events (if t = "-" || t = "" then [] else hexd t) in
      show_events evs ^ "|" ^ (if ok then "1" else "0")
    | [] -> let (evs, ok) = JsonParse.parse_events [] in show_events evs ^ "|" ^ (if ok then "1" else "0")
    | _ -> "BADARGS");
  reg "json_tree" (function [t] -> show_events (JsonSpec.events_of JsonModel.SValue (parse_tree t)) | _ -> "BADARGS")
