(* Engine handlers for mvmodel: parse the harness' case encodings into the extracted types. *)
open Util
let sl = Stdlib.String.length
let split c s = Stdlib.String.split_on_char c s
let hexd s = if s = "-" then [] else bytes_of_hex s
let hexe l = if l = [] then "-" else hex_of_bytes l

(* ---- Json ---- *)
let pstate_of_int = function 0 -> JsonModel.SValue | 1 -> JsonModel.SObjectKey | 2 -> JsonModel.SObjectValue | _ -> JsonModel.SArray
let int_of_pstate = function JsonModel.SValue -> 0 | JsonModel.SObjectKey -> 1 | JsonModel.SObjectValue -> 2 | JsonModel.SArray -> 3
let gtype_of_int = function 0 -> JsonModel.GLiteral | 1 -> JsonModel.GNumber | 2 -> JsonModel.GString | 3 -> JsonModel.GStartObject
  | 4 -> JsonModel.GEndObject | 5 -> JsonModel.GStartArray | _ -> JsonModel.GEndArray
let int_of_gtype = function JsonModel.GLiteral -> 0 | JsonModel.GNumber -> 1 | JsonModel.GString -> 2 | JsonModel.GStartObject -> 3
  | JsonModel.GEndObject -> 4 | JsonModel.GStartArray -> 5 | JsonModel.GEndArray -> 6
let parse_events s =
  if s = "" then [] else
  Stdlib.List.map (fun e -> match split ':' e with
    | [a; b; c] -> { JsonModel.e_state = pstate_of_int (int_of_string a); e_gt = gtype_of_int (int_of_string b); e_text = hexd c }
    | _ -> failwith "event") (split ',' s)
let show_events evs =
  Stdlib.String.concat "," (Stdlib.List.map (fun e ->
    Printf.sprintf "%d:%d:%s" (int_of_pstate e.JsonModel.e_state) (int_of_gtype e.JsonModel.e_gt) (hexe e.JsonModel.e_text)) evs)
let parse_tree s =
  let toks = ref (Stdlib.List.filter (fun x -> x <> "") (split ' ' s)) in
  let next () = match !toks with t :: r -> toks := r; t | [] -> failwith "tree" in
  let rec value () =
    match next () with
    | "L" -> JsonSpec.JLit (hexd (next ()))
    | "N" -> JsonSpec.JNum (hexd (next ()))
    | "S" -> JsonSpec.JStr (hexd (next ()))
    | "A" -> let n = int_of_string (next ()) in JsonSpec.JArr (Stdlib.List.init n (fun _ -> value ()))
    | "O" -> let n = int_of_string (next ()) in
             JsonSpec.JObj (Stdlib.List.init n (fun _ -> let k = hexd (next ()) in let v = value () in (k, v)))
    | _ -> failwith "tree tag" in
  value ()

let register (reg : string -> (string list -> string) -> unit) =
  reg "json_events" (function [k; evs] -> hexe (JsonModel.json_minify_events (k = "1") (parse_events evs))
                            | [k] -> hexe (JsonModel.json_minify_events (k = "1") []) | _ -> "BADARGS");
  reg "json_tree" (function [t] -> show_events (JsonSpec.events_of JsonModel.SValue (parse_tree t)) | _ -> "BADARGS")
