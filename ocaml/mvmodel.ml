(* mvmodel: runs the extracted Coq models on case files.
   stdin: one case per line, tab-separated: <function> <hex args...> ; stdout: one result line per case. *)
open Util
let handlers : (string, string list -> string) Hashtbl.t = Hashtbl.create 64
let reg name f = Hashtbl.replace handlers name f
let () =
  reg "number0" (function [a] -> hex_of_bytes (NumModel.number0 (bytes_of_hex a)) | _ -> "BADARGS");
  reg "decimal0" (function [a] -> hex_of_bytes (NumModel.decimal0 (bytes_of_hex a)) | _ -> "BADARGS");
  reg "valid_number" (function [a] -> if NumModel.valid_number (bytes_of_hex a) then "1" else "0" | _ -> "BADARGS");
  Engines.register reg
let () =
  (try while true do
    let line = input_line stdin in
    match split_tab line with
    | f :: args ->
      (match Hashtbl.find_opt handlers f with
       | Some h -> print_endline (try h args with e -> "EXN:" ^ Printexc.to_string e)
       | None -> print_endline ("NOFUNC:" ^ f))
    | [] -> print_endline "EMPTY"
  done with End_of_file -> ())
