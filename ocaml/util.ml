(* Conversions between OCaml values and the extracted inductive types (Z stays inductive). *)
open BinNums
let rec pos_of_int n = if n = 1 then Coq_xH else if n land 1 = 0 then Coq_xO (pos_of_int (n lsr 1)) else Coq_xI (pos_of_int (n lsr 1))
let z_of_int n = if n = 0 then Z0 else if n > 0 then Zpos (pos_of_int n) else Zneg (pos_of_int (-n))
let rec int_of_pos = function Coq_xH -> 1 | Coq_xO p -> 2 * int_of_pos p | Coq_xI p -> 2 * int_of_pos p + 1
let int_of_z = function Z0 -> 0 | Zpos p -> int_of_pos p | Zneg p -> - (int_of_pos p)
let rec nat_of_int n = if n <= 0 then Datatypes.O else Datatypes.S (nat_of_int (n - 1))
let rec int_of_nat = function Datatypes.O -> 0 | Datatypes.S n -> 1 + int_of_nat n
let hexval c = match c with '0'..'9' -> Char.code c - 48 | 'a'..'f' -> Char.code c - 87 | 'A'..'F' -> Char.code c - 55 | _ -> failwith "hex"
let bytes_of_hex s =
  let n = Stdlib.String.length s / 2 in
  Stdlib.List.init n (fun i -> z_of_int (hexval (Stdlib.String.get s (2*i)) * 16 + hexval (Stdlib.String.get s (2*i+1))))
let hex_of_bytes l =
  let b = Buffer.create 64 in
  Stdlib.List.iter (fun z -> Buffer.add_string b (Printf.sprintf "%02x" ((int_of_z z) land 255))) l;
  Buffer.contents b
let bytes_of_string s = Stdlib.List.init (Stdlib.String.length s) (fun i -> z_of_int (Char.code (Stdlib.String.get s (i))))
let string_of_bytes l = Stdlib.String.concat "" (Stdlib.List.map (fun z -> Stdlib.String.make 1 (Char.chr ((int_of_z z) land 255))) l)
let split_tab s = Stdlib.String.split_on_char '\t' s

(* Coq strings (inductive, 8-bit ascii) <-> OCaml strings *)
let ascii_of_char c =
  let n = Char.code c in
  let b i = (n lsr i) land 1 = 1 in
  Ascii.Ascii (b 0, b 1, b 2, b 3, b 4, b 5, b 6, b 7)
let char_of_ascii (Ascii.Ascii (b0, b1, b2, b3, b4, b5, b6, b7)) =
  let v b i = if b then 1 lsl i else 0 in
  Char.chr (v b0 0 + v b1 1 + v b2 2 + v b3 3 + v b4 4 + v b5 5 + v b6 6 + v b7 7)
let rec coq_string_of_list = function [] -> String.EmptyString | c :: r -> String.String (ascii_of_char c, coq_string_of_list r)
let coq_string s = coq_string_of_list (Stdlib.List.init (Stdlib.String.length s) (Stdlib.String.get s))
let rec ocaml_string = function String.EmptyString -> "" | String.String (a, r) -> Stdlib.String.make 1 (char_of_ascii a) ^ ocaml_string r
