module veriftranslator

go 1.18
