package main

// JS facts about rewrite SITES (js/*.go):
//  - js_version_gates: every place that introduces syntax newer than ES5 (optional catch binding, `**`, `??`, `?.`, template
//    literals for strings, shorthand properties) with the ECMAScript version test that dominates it: enclosing
//    `if ... minVersion(N) ...` then-branches in the same function, or, for a helper function, the weakest gate over all
//    its call sites (followed up to three levels).  0 = no gate found.
//  - js_group_sites: every operand of a BinaryExpr / UnaryExpr / CondExpr literal built by a rewrite that is wrapped in
//    groupExpr(x, P), with the operator, the operand position and P in normal form; operands passed without groupExpr are
//    counted per site as "raw".

import (
	"bytes"
	"fmt"
	"go/ast"
	"go/parser"
	"go/printer"
	"go/token"
	"os"
	"path/filepath"
	"sort"
	"strconv"
	"strings"
)

type jsFunc struct {
	file string
	decl *ast.FuncDecl
}

func src(fset *token.FileSet, n ast.Node) string {
	var b bytes.Buffer
	printer.Fprint(&b, fset, n)
	return strings.Join(strings.Fields(b.String()), " ")
}

// minVersionIn returns the largest N of an un-negated minVersion(N) call among the &&-conjuncts of cond (0 if none).
func minVersionIn(cond ast.Expr) int {
	switch e := cond.(type) {
	case *ast.ParenExpr:
		return minVersionIn(e.X)
	case *ast.BinaryExpr:
		if e.Op == token.LAND {
			a, b := minVersionIn(e.X), minVersionIn(e.Y)
			if a > b {
				return a
			}
			return b
		}
	case *ast.CallExpr:
		if sel, ok := e.Fun.(*ast.SelectorExpr); ok && sel.Sel.Name == "minVersion" && len(e.Args) == 1 {
			if bl, ok := e.Args[0].(*ast.BasicLit); ok {
				n, _ := strconv.Atoi(bl.Value)
				return n
			}
		}
	}
	return 0
}

// negatedMinVersionIn: N of a `!...minVersion(N)` among the ||-disjuncts of cond (the else-branch is then gated by N).
func negatedMinVersionIn(cond ast.Expr) int {
	switch e := cond.(type) {
	case *ast.ParenExpr:
		return negatedMinVersionIn(e.X)
	case *ast.BinaryExpr:
		if e.Op == token.LOR || e.Op == token.LAND { // a && (b || !minVersion) is false only if ... : accept only pure disjunction chains below
			if e.Op == token.LOR {
				a, b := negatedMinVersionIn(e.X), negatedMinVersionIn(e.Y)
				if a > b {
					return a
				}
				return b
			}
			// conjunction A && (B || !minVersion(N)): when A holds, the test fails only if minVersion(N) holds.  Used for the
			// shorthand-property site only, where A (the property has a name) is what makes the short form a shorthand.
			a, b := negatedMinVersionIn(e.X), negatedMinVersionIn(e.Y)
			if a > b {
				return a
			}
			return b
		}
	case *ast.UnaryExpr:
		if e.Op == token.NOT {
			return minVersionIn(e.X)
		}
	}
	return 0
}

func genJsGates(repo, out string) {
	fset := token.NewFileSet()
	files, _ := filepath.Glob(filepath.Join(repo, "js", "*.go"))
	sort.Strings(files)
	funcs := map[string]*jsFunc{}
	var parsed []*ast.File
	var names []string
	for _, f := range files {
		base := filepath.Base(f)
		if strings.HasSuffix(base, "_test.go") || strings.HasPrefix(base, "verif_") {
			continue
		}
		af, err := parser.ParseFile(fset, f, nil, 0)
		if err != nil {
			fmt.Fprintln(os.Stderr, "translator:", err)
			os.Exit(1)
		}
		parsed = append(parsed, af)
		names = append(names, base)
		for _, d := range af.Decls {
			if fd, ok := d.(*ast.FuncDecl); ok && fd.Body != nil {
				funcs[fd.Name.Name] = &jsFunc{base, fd}
			}
		}
	}
	// ---- gate of a node inside a function: walk with a stack of enclosing nodes
	type site struct {
		feature, where string
		gate       int
	}
	var sites []site
	// gate dominating position `target` within fd (then-branches of ifs whose cond has minVersion; else-branches of ifs whose
	// cond is a disjunction containing !minVersion)
	gateIn := func(fd *ast.FuncDecl, target ast.Node) int {
		best := 0
		var stack []ast.Node
		ast.Inspect(fd, func(n ast.Node) bool {
			if n == nil {
				stack = stack[:len(stack)-1]
				return true
			}
			stack = append(stack, n)
			if n == target {
				for i, s := range stack {
					ifs, ok := s.(*ast.IfStmt)
					if !ok || i+1 >= len(stack) {
						continue
					}
					child := stack[i+1]
					if child == ast.Node(ifs.Body) {
						if g := minVersionIn(ifs.Cond); g > best {
							best = g
						}
					} else if ifs.Else != nil && child == ifs.Else {
						if g := negatedMinVersionIn(ifs.Cond); g > best {
							best = g
						}
					}
				}
			}
			return true
		})
		return best
	}
	var gateOfFunc func(name string, depth int) int
	gateOfFunc = func(name string, depth int) int {
		if depth > 3 {
			return 0
		}
		weakest := -1
		for _, jf := range funcs {
			var calls []ast.Node
			ast.Inspect(jf.decl, func(n ast.Node) bool {
				if ce, ok := n.(*ast.CallExpr); ok {
					fn := ""
					switch f := ce.Fun.(type) {
					case *ast.Ident:
						fn = f.Name
					case *ast.SelectorExpr:
						fn = f.Sel.Name
					}
					if fn == name && jf.decl.Name.Name != name {
						calls = append(calls, ce)
					}
				}
				return true
			})
			for _, c := range calls {
				g := gateIn(jf.decl, c)
				if g == 0 {
					g = gateOfFunc(jf.decl.Name.Name, depth+1)
				}
				if weakest < 0 || g < weakest {
					weakest = g
				}
			}
		}
		if weakest < 0 {
			return 0
		}
		return weakest
	}
	addSite := func(feature string, jf *jsFunc, n ast.Node) {
		g := gateIn(jf.decl, n)
		if g == 0 {
			g = gateOfFunc(jf.decl.Name.Name, 1)
		}
		sites = append(sites, site{feature, jf.file + ":" + jf.decl.Name.Name, g})
	}
	isJsSel := func(e ast.Expr, name string) bool {
		s, ok := e.(*ast.SelectorExpr)
		if !ok || s.Sel.Name != name {
			return false
		}
		id, ok := s.X.(*ast.Ident)
		return ok && id.Name == "js"
	}
	newer := map[string]string{"ExpToken": "exponent-operator", "ExpEqToken": "exponent-operator", "NullishToken": "nullish-coalescing",
		"NullishEqToken": "logical-assignment", "AndEqToken": "logical-assignment", "OrEqToken": "logical-assignment", "OptChainToken": "optional-chaining"}
	// ---- group sites
	type gsite struct{ where, node, op, side, pk, pn string }
	var gsites []gsite
	raw := 0
	normPrec := func(e ast.Expr) (string, string) {
		switch p := e.(type) {
		case *ast.IndexExpr:
			if id, ok := p.X.(*ast.Ident); ok {
				side := map[string]string{"binaryLeftPrecMap": "left", "binaryRightPrecMap": "right", "unaryPrecMap": "unary", "binaryOpPrecMap": "binop", "unaryOpPrecMap": "unop"}[id.Name]
				if side != "" {
					return side, selName(p.Index)
				}
			}
		case *ast.SelectorExpr:
			if isJsSel(p, p.Sel.Name) && strings.HasPrefix(p.Sel.Name, "Op") {
				return "const", p.Sel.Name
			}
		}
		return "other", strings.ReplaceAll(src(fset, e), "\"", "'")
	}
	var groupCall func(e ast.Expr) (ast.Expr, bool)
	groupCall = func(e ast.Expr) (ast.Expr, bool) {
		switch v := e.(type) {
		case *ast.CallExpr:
			if id, ok := v.Fun.(*ast.Ident); ok && id.Name == "groupExpr" && len(v.Args) == 2 {
				return v.Args[1], true
			}
		case *ast.Ident:
			if v.Obj != nil {
				if as, ok := v.Obj.Decl.(*ast.AssignStmt); ok && len(as.Lhs) == len(as.Rhs) {
					for i, l := range as.Lhs {
						if li, ok := l.(*ast.Ident); ok && li.Name == v.Name {
							return groupCall(as.Rhs[i])
						}
					}
				}
			}
		}
		return nil, false
	}
	for _, name := range func() []string {
		var ns []string
		for n := range funcs {
			ns = append(ns, n)
		}
		sort.Strings(ns)
		return ns
	}() {
		jf := funcs[name]
		ast.Inspect(jf.decl, func(n ast.Node) bool {
			switch v := n.(type) {
			case *ast.AssignStmt:
				for i, l := range v.Lhs {
					if i >= len(v.Rhs) {
						break
					}
					if s, ok := l.(*ast.SelectorExpr); ok {
						if id, ok := v.Rhs[i].(*ast.Ident); ok && s.Sel.Name == "Binding" && id.Name == "nil" {
							addSite("optional-catch-binding", jf, v)
						}
						if id, ok := v.Rhs[i].(*ast.Ident); ok && s.Sel.Name == "Optional" && id.Name == "true" {
							addSite("optional-chaining", jf, v)
						}
						if rs, ok := v.Rhs[i].(*ast.SelectorExpr); ok && isJsSel(rs, rs.Sel.Name) && newer[rs.Sel.Name] != "" && (s.Sel.Name == "Op" || s.Sel.Name == "TokenType") {
							addSite(newer[rs.Sel.Name], jf, v)
						}
					}
				}
			case *ast.CallExpr:
				if sel, ok := v.Fun.(*ast.SelectorExpr); ok && sel.Sel.Name == "write" && len(v.Args) == 1 {
					if id, ok := v.Args[0].(*ast.Ident); ok && id.Name == "expBytes" {
						// the only writer of the `**` bytes outside the generic operator printing is the Math.pow rewrite
						addSite("exponent-operator", jf, v)
					}
				}
				if id, ok := v.Fun.(*ast.Ident); ok && id.Name == "minifyString" && len(v.Args) == 2 && jf.decl.Name.Name != "minifyString" {
					// the second argument allows the template-literal form: it must itself be the version test
					g := 0
					if lit, ok := v.Args[1].(*ast.Ident); ok && lit.Name == "false" {
						g = 9999 // never produces a template literal
					} else {
						g = minVersionIn(v.Args[1])
						if g == 0 {
							g = gateIn(jf.decl, v)
						}
					}
					sites = append(sites, site{"template-literal", jf.file + ":" + jf.decl.Name.Name, g})
				}
			case *ast.IfStmt:
				// shorthand property: written when the test `... || !minVersion(N)` of the long form fails
				if strings.Contains(src(fset, v.Cond), "IsIdent(") && strings.Contains(src(fset, v.Cond), "minVersion(") {
					sites = append(sites, site{"shorthand-property", jf.file + ":" + jf.decl.Name.Name, negatedMinVersionIn(v.Cond)})
				}
			case *ast.CompositeLit:
				tn := ""
				if s, ok := v.Type.(*ast.SelectorExpr); ok {
					tn = s.Sel.Name
				}
				elts := v.Elts
				get := func(i int, key string) ast.Expr {
					for _, e := range elts {
						if kv, ok := e.(*ast.KeyValueExpr); ok {
							if k, ok := kv.Key.(*ast.Ident); ok && k.Name == key {
								return kv.Value
							}
						}
					}
					if i < len(elts) {
						if _, ok := elts[i].(*ast.KeyValueExpr); !ok {
							return elts[i]
						}
					}
					return nil
				}
				where := jf.file + ":" + jf.decl.Name.Name
				addOperand := func(node, op, side string, e ast.Expr) {
					if e == nil {
						return
					}
					if p, ok := groupCall(e); ok {
						pk, pn := normPrec(p)
						gsites = append(gsites, gsite{where, node, op, side, pk, pn})
					} else {
						raw++
					}
				}
				switch tn {
				case "BinaryExpr":
					op := get(0, "Op")
					if op == nil {
						break
					}
					if s, ok := op.(*ast.SelectorExpr); ok && newer[s.Sel.Name] != "" {
						addSite(newer[s.Sel.Name], jf, v)
					}
					addOperand("binary", selName(op), "left", get(1, "X"))
					addOperand("binary", selName(op), "right", get(2, "Y"))
				case "UnaryExpr":
					op := get(0, "Op")
					if op == nil {
						break
					}
					addOperand("unary", selName(op), "operand", get(1, "X"))
				case "CondExpr":
					addOperand("cond", "?:", "test", get(0, "Cond"))
					addOperand("cond", "?:", "branch", get(1, "X"))
					addOperand("cond", "?:", "branch", get(2, "Y"))
				case "DotExpr", "IndexExpr":
					for _, e := range elts {
						if kv, ok := e.(*ast.KeyValueExpr); ok {
							if k, ok := kv.Key.(*ast.Ident); ok && k.Name == "Optional" {
								if id, ok := kv.Value.(*ast.Ident); ok && id.Name == "true" {
									addSite("optional-chaining", jf, v)
								}
							}
						}
					}
				}
			}
			return true
		})
	}
	sort.Slice(sites, func(i, j int) bool {
		if sites[i].feature != sites[j].feature {
			return sites[i].feature < sites[j].feature
		}
		return sites[i].where < sites[j].where
	})
	var w strings.Builder
	w.WriteString("(* GENERATED by /verif/translator (jsgates.go) from /repo/js/*.go on every run — do not edit. *)\n")
	w.WriteString("From Coq Require Import List String ZArith.\nImport ListNotations.\nLocal Open Scope string_scope.\nLocal Open Scope Z_scope.\n\n")
	fmt.Fprintf(&w, "(* (feature, site, dominating minVersion gate; 0 = none found, 9999 = the newer form is switched off at this site) *)\nDefinition js_version_gates : list (string * string * Z) := [\n")
	for i, s := range sites {
		sep := ";"
		if i == len(sites)-1 {
			sep = ""
		}
		fmt.Fprintf(&w, "  (\"%s\", \"%s\", %d)%s\n", s.feature, s.where, s.gate, sep)
	}
	w.WriteString("].\n\n")
	fmt.Fprintf(&w, "(* (site, node kind, operator token, operand position, precedence handed to groupExpr) ; %d operands are passed without groupExpr *)\nDefinition js_group_sites : list (string * string * string * string * (string * string)) := [\n", raw)
	for i, s := range gsites {
		sep := ";"
		if i == len(gsites)-1 {
			sep = ""
		}
		fmt.Fprintf(&w, "  (\"%s\", \"%s\", \"%s\", \"%s\", (\"%s\", \"%s\"))%s\n", s.where, s.node, s.op, s.side, s.pk, s.pn, sep)
	}
	w.WriteString("].\n")
	fmt.Fprintf(&w, "Definition js_group_raw_operands : Z := %d.\n", raw)
	_ = names
	_ = parsed
	writeIfChanged(filepath.Join(out, "JsGates_gen.v"), w.String())
}
