// translator: regenerates coq/gen/*_gen.v from /repo's sources on every run (T-gen, DESIGN.md 2.1).
// It transcribes literal tables and skeleton facts with go/parser + go/ast; nothing is evaluated.
//
//	translator -repo /repo -out /verif/coq/gen
package main

import (
	"flag"
	"fmt"
	"go/ast"
	"go/parser"
	"go/token"
	"os"
	"path/filepath"
	"sort"
	"strconv"
	"strings"
)

var fset = token.NewFileSet()

func parseFile(path string) *ast.File {
	f, err := parser.ParseFile(fset, path, nil, parser.ParseComments)
	if err != nil {
		fmt.Fprintln(os.Stderr, "translator:", err)
		os.Exit(1)
	}
	return f
}

// findVar returns the composite literal bound to a package-level var.
func findVar(f *ast.File, name string) *ast.CompositeLit {
	for _, d := range f.Decls {
		gd, ok := d.(*ast.GenDecl)
		if !ok || gd.Tok != token.VAR {
			continue
		}
		for _, s := range gd.Specs {
			vs := s.(*ast.ValueSpec)
			for i, n := range vs.Names {
				if n.Name == name && i < len(vs.Values) {
					if cl, ok := vs.Values[i].(*ast.CompositeLit); ok {
						return cl
					}
				}
			}
		}
	}
	fmt.Fprintf(os.Stderr, "translator: var %s not found\n", name)
	os.Exit(1)
	return nil
}

// iotaConsts returns name -> value for `const ( a T = 1 << iota; b; c )` blocks of the given type.
func iotaConsts(f *ast.File, typ string) map[string]int {
	out := map[string]int{}
	for _, d := range f.Decls {
		gd, ok := d.(*ast.GenDecl)
		if !ok || gd.Tok != token.CONST {
			continue
		}
		match := false
		for i, s := range gd.Specs {
			vs := s.(*ast.ValueSpec)
			if i == 0 {
				if id, ok := vs.Type.(*ast.Ident); ok && id.Name == typ {
					if be, ok := vs.Values[0].(*ast.BinaryExpr); ok && be.Op == token.SHL {
						match = true
					}
				}
			}
			if match {
				for _, n := range vs.Names {
					out[n.Name] = 1 << uint(i)
				}
			}
		}
	}
	return out
}

func strLit(e ast.Expr) (string, bool) {
	switch v := e.(type) {
	case *ast.BasicLit:
		if v.Kind == token.STRING {
			s, err := strconv.Unquote(v.Value)
			return s, err == nil
		}
		if v.Kind == token.CHAR {
			s, err := strconv.Unquote(v.Value)
			return s, err == nil
		}
	case *ast.CallExpr: // []byte("...")
		if len(v.Args) == 1 {
			return strLit(v.Args[0])
		}
	}
	return "", false
}

// hashName turns a Hash constant identifier into the name it stands for (Http_Equiv -> http-equiv).
func hashName(id string) string { return strings.ToLower(strings.ReplaceAll(id, "_", "-")) }

func coqBytes(s string) string {
	var b strings.Builder
	b.WriteByte('[')
	for i := 0; i < len(s); i++ {
		if i > 0 {
			b.WriteByte(';')
		}
		fmt.Fprintf(&b, "%d", s[i])
	}
	b.WriteByte(']')
	return b.String()
}

type pair struct{ k, v string }

func sortedPairs(p []pair) []pair {
	sort.Slice(p, func(i, j int) bool { return p[i].k < p[j].k })
	return p
}

func emitPairs(w *strings.Builder, name, comment string, ps []pair) {
	fmt.Fprintf(w, "(* %s — %d entries *)\nDefinition %s : list (bytes * bytes) := [\n", comment, len(ps), name)
	for i, p := range ps {
		sep := ";"
		if i == len(ps)-1 {
			sep = ""
		}
		fmt.Fprintf(w, "  (%s, %s)%s (* %s -> %s *)\n", coqBytes(p.k), coqBytes(p.v), sep, safe(p.k), safe(p.v))
	}
	w.WriteString("].\n\n")
}

func safe(s string) string {
	s = strings.ReplaceAll(s, "(*", "( *")
	s = strings.ReplaceAll(s, "*)", "* )")
	s = strings.ReplaceAll(s, "\"", "<dquote>")
	var b strings.Builder
	for _, r := range s {
		if r < 32 || r == 127 {
			fmt.Fprintf(&b, "\\x%02x", r)
		} else {
			b.WriteRune(r)
		}
	}
	return b.String()
}

func stringMap(cl *ast.CompositeLit, keyIsHash bool) []pair {
	var ps []pair
	for _, e := range cl.Elts {
		kv := e.(*ast.KeyValueExpr)
		var k string
		if id, ok := kv.Key.(*ast.Ident); ok && keyIsHash {
			k = hashName(id.Name)
		} else if s, ok := strLit(kv.Key); ok {
			k = s
		} else {
			fmt.Fprintln(os.Stderr, "translator: unexpected key", fset.Position(kv.Pos()))
			os.Exit(1)
		}
		v, ok := strLit(kv.Value)
		if !ok {
			if id, ok2 := kv.Value.(*ast.Ident); ok2 && id.Name == "true" {
				v = "1"
			} else {
				fmt.Fprintln(os.Stderr, "translator: unexpected value", fset.Position(kv.Pos()))
				os.Exit(1)
			}
		}
		ps = append(ps, pair{k, v})
	}
	return sortedPairs(ps)
}

func traitValue(e ast.Expr, consts map[string]int) int {
	switch v := e.(type) {
	case *ast.Ident:
		c, ok := consts[v.Name]
		if !ok {
			fmt.Fprintln(os.Stderr, "translator: unknown trait", v.Name)
			os.Exit(1)
		}
		return c
	case *ast.BinaryExpr:
		if v.Op == token.OR {
			return traitValue(v.X, consts) | traitValue(v.Y, consts)
		}
	case *ast.ParenExpr:
		return traitValue(v.X, consts)
	}
	fmt.Fprintln(os.Stderr, "translator: unexpected trait expression", fset.Position(e.Pos()))
	os.Exit(1)
	return 0
}

func traitMap(w *strings.Builder, name, comment string, cl *ast.CompositeLit, consts map[string]int) {
	type tv struct {
		k string
		v int
	}
	var ps []tv
	for _, e := range cl.Elts {
		kv := e.(*ast.KeyValueExpr)
		ps = append(ps, tv{hashName(kv.Key.(*ast.Ident).Name), traitValue(kv.Value, consts)})
	}
	sort.Slice(ps, func(i, j int) bool { return ps[i].k < ps[j].k })
	fmt.Fprintf(w, "(* %s — %d entries *)\nDefinition %s : list (bytes * Z) := [\n", comment, len(ps), name)
	for i, p := range ps {
		sep := ";"
		if i == len(ps)-1 {
			sep = ""
		}
		fmt.Fprintf(w, "  (%s, %d)%s (* %s *)\n", coqBytes(p.k), p.v, sep, p.k)
	}
	w.WriteString("].\n\n")
}

func writeIfChanged(path, content string) {
	old, err := os.ReadFile(path)
	if err == nil && string(old) == content {
		return
	}
	if err := os.WriteFile(path, []byte(content), 0o644); err != nil {
		fmt.Fprintln(os.Stderr, "translator:", err)
		os.Exit(1)
	}
}

func main() {
	repo := flag.String("repo", "/repo", "")
	out := flag.String("out", "", "")
	flag.Parse()
	os.MkdirAll(*out, 0o755)
	genTables(*repo, *out)
	genSkeletons(*repo, *out)
	genShared(*repo, *out)
	genJs(*repo, *out)
	genJsGates(*repo, *out)
	genCli(*repo, *out)
	genHtmlDefaults(*repo, *out)
}

func genTables(repo, out string) {
	var w strings.Builder
	w.WriteString("(* GENERATED by /verif/translator from /repo's table files on every run — do not edit. *)\n")
	w.WriteString("From MV Require Import Base.MvBytes.\n\n")
	ht := parseFile(filepath.Join(repo, "html", "table.go"))
	tagC := iotaConsts(ht, "traits")
	// two const blocks share the type: the first is tag traits, the second attribute traits; names are distinct
	for _, n := range []string{"normalTag", "rawTag", "blockTag", "objectTag", "omitPTag", "keepPTag", "booleanAttr", "urlAttr", "trimAttr"} {
		if v, ok := tagC[n]; ok {
			fmt.Fprintf(&w, "Definition trait_%s : Z := %d.\n", n, v)
		} else {
			fmt.Fprintf(&w, "Definition trait_%s : Z := 0. (* constant no longer present *)\n", n)
		}
	}
	w.WriteString("\n")
	traitMap(&w, "html_tag_traits", "html/table.go tagMap", findVar(ht, "tagMap"), tagC)
	traitMap(&w, "html_attr_traits", "html/table.go attrMap", findVar(ht, "attrMap"), tagC)
	emitPairs(&w, "html_js_mimetypes", "html/table.go jsMimetypes (value 1 = true)", stringMap(findVar(ht, "jsMimetypes"), false))
	emitPairs(&w, "html_entities", "html/table.go EntitiesMap: name -> replacement", stringMap(findVar(ht, "EntitiesMap"), false))
	emitPairs(&w, "html_text_rev_entities", "html/table.go TextRevEntitiesMap: byte -> escape", stringMap(findVar(ht, "TextRevEntitiesMap"), false))
	xt := parseFile(filepath.Join(repo, "xml", "table.go"))
	emitPairs(&w, "xml_entities", "xml/table.go EntitiesMap", stringMap(findVar(xt, "EntitiesMap"), false))
	emitPairs(&w, "xml_text_rev_entities", "xml/table.go TextRevEntitiesMap", stringMap(findVar(xt, "TextRevEntitiesMap"), false))
	emitPairs(&w, "xml_attr_rev_entities", "xml/table.go AttrRevEntitiesMap", stringMap(findVar(xt, "AttrRevEntitiesMap"), false))
	ct := parseFile(filepath.Join(repo, "css", "table.go"))
	emitPairs(&w, "css_zero_dimensions", "css/table.go optionalZeroDimension (units dropped from zero values)", stringMap(findVar(ct, "optionalZeroDimension"), false))
	emitPairs(&w, "css_shorten_color_hex", "css/table.go ShortenColorHex: hex -> keyword", stringMap(findVar(ct, "ShortenColorHex"), false))
	emitPairs(&w, "css_shorten_color_name", "css/table.go ShortenColorName: keyword -> hex", stringMap(findVar(ct, "ShortenColorName"), true))
	st := parseFile(filepath.Join(repo, "svg", "table.go"))
	emitPairs(&w, "svg_color_attrs", "svg/table.go colorAttrMap", stringMap(findVar(st, "colorAttrMap"), true))
	writeIfChanged(filepath.Join(out, "Tables_gen.v"), w.String())
}
