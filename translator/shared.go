package main

import (
	"fmt"
	"go/ast"
	"go/token"
	"os"
	"path/filepath"
	"sort"
	"strings"
)

// Shared-state facts for C13: statements outside init() and outside package-level initialisers that write
// package-level variables, append() calls whose base is a package-level slice, and writes through a pointer
// receiver of a Minifier option struct inside its Minify method before the struct was copied.
type sw struct {
	file string
	line int
	kind string // assign-global | incdec-global | append-global | receiver-write
	name string
}

func rootIdent(e ast.Expr) *ast.Ident {
	for {
		switch v := e.(type) {
		case *ast.Ident:
			return v
		case *ast.IndexExpr:
			e = v.X
		case *ast.SelectorExpr:
			e = v.X
		case *ast.StarExpr:
			e = v.X
		case *ast.ParenExpr:
			e = v.X
		case *ast.SliceExpr:
			e = v.X
		default:
			return nil
		}
	}
}

func scanPackage(repo, dir string, out *[]sw) {
	files, _ := filepath.Glob(filepath.Join(repo, dir, "*.go"))
	sort.Strings(files)
	var parsed []*ast.File
	var names []string
	globals := map[string]bool{}
	for _, f := range files {
		if strings.HasSuffix(f, "_test.go") {
			continue
		}
		af := parseFile(f)
		// skip files guarded by the verif build tag (our own hooks)
		skip := false
		for _, cg := range af.Comments {
			if cg.Pos() < af.Package && strings.Contains(cg.Text(), "go:build verif") {
				skip = true
			}
		}
		if skip {
			continue
		}
		parsed = append(parsed, af)
		rel, _ := filepath.Rel(repo, f)
		names = append(names, rel)
		for _, d := range af.Decls {
			if gd, ok := d.(*ast.GenDecl); ok && gd.Tok == token.VAR {
				for _, s := range gd.Specs {
					for _, n := range s.(*ast.ValueSpec).Names {
						globals[n.Name] = true
					}
				}
			}
		}
	}
	for fi, af := range parsed {
		for _, d := range af.Decls {
			fd, ok := d.(*ast.FuncDecl)
			if !ok || fd.Body == nil || (fd.Name.Name == "init" && fd.Recv == nil) {
				continue
			}
			// locals shadowing globals: collect declared names in this function (params, :=, var)
			local := map[string]bool{}
			if fd.Recv != nil {
				for _, f := range fd.Recv.List {
					for _, n := range f.Names {
						local[n.Name] = true
					}
				}
			}
			for _, f := range fd.Type.Params.List {
				for _, n := range f.Names {
					local[n.Name] = true
				}
			}
			if fd.Type.Results != nil {
				for _, f := range fd.Type.Results.List {
					for _, n := range f.Names {
						local[n.Name] = true
					}
				}
			}
			ast.Inspect(fd.Body, func(n ast.Node) bool {
				switch v := n.(type) {
				case *ast.AssignStmt:
					if v.Tok == token.DEFINE {
						for _, l := range v.Lhs {
							if id, ok := l.(*ast.Ident); ok {
								local[id.Name] = true
							}
						}
					}
				case *ast.ValueSpec:
					for _, id := range v.Names {
						local[id.Name] = true
					}
				case *ast.RangeStmt:
					if v.Tok == token.DEFINE {
						for _, l := range []ast.Expr{v.Key, v.Value} {
							if id, ok := l.(*ast.Ident); ok {
								local[id.Name] = true
							}
						}
					}
				}
				return true
			})
			isGlobal := func(id *ast.Ident) bool { return id != nil && globals[id.Name] && !local[id.Name] }
			// receiver writes in Minify methods
			recvName := ""
			if fd.Recv != nil && fd.Name.Name == "Minify" && len(fd.Recv.List) == 1 && len(fd.Recv.List[0].Names) == 1 {
				if _, ok := fd.Recv.List[0].Type.(*ast.StarExpr); ok {
					recvName = fd.Recv.List[0].Names[0].Name
				}
			}
			recvCopied := false
			ast.Inspect(fd.Body, func(n ast.Node) bool {
				switch v := n.(type) {
				case *ast.AssignStmt:
					if v.Tok == token.DEFINE {
						return true
					}
					for _, l := range v.Lhs {
						if id, ok := l.(*ast.Ident); ok && recvName != "" && id.Name == recvName {
							recvCopied = true // o = tmp
							continue
						}
						id := rootIdent(l)
						if isGlobal(id) {
							*out = append(*out, sw{names[fi], fset.Position(v.Pos()).Line, "assign-global", id.Name})
						}
						if recvName != "" && !recvCopied && id != nil && id.Name == recvName {
							if _, isSel := l.(*ast.SelectorExpr); isSel {
								*out = append(*out, sw{names[fi], fset.Position(v.Pos()).Line, "receiver-write", exprString(l)})
							}
						}
					}
				case *ast.IncDecStmt:
					if id := rootIdent(v.X); isGlobal(id) {
						*out = append(*out, sw{names[fi], fset.Position(v.Pos()).Line, "incdec-global", id.Name})
					}
				case *ast.CallExpr:
					if fn, ok := v.Fun.(*ast.Ident); ok && fn.Name == "append" && len(v.Args) > 0 {
						if id, ok := v.Args[0].(*ast.Ident); ok && isGlobal(id) {
							*out = append(*out, sw{names[fi], fset.Position(v.Pos()).Line, "append-global", id.Name})
						}
					}
				}
				return true
			})
		}
	}
}

func exprString(e ast.Expr) string {
	switch v := e.(type) {
	case *ast.Ident:
		return v.Name
	case *ast.SelectorExpr:
		return exprString(v.X) + "." + v.Sel.Name
	}
	return "?"
}

func genShared(repo, out string) {
	var all []sw
	for _, d := range []string{".", "css", "html", "js", "json", "svg", "xml"} {
		scanPackage(repo, d, &all)
	}
	var w strings.Builder
	w.WriteString("(* GENERATED by /verif/translator from the non-test sources of /repo on every run — do not edit.\n")
	w.WriteString("   Shared-state facts: writes to package-level variables outside init, append() on a package-level slice,\n")
	w.WriteString("   writes through the pointer receiver of a Minify method before the option struct was copied. *)\n")
	w.WriteString("From MV Require Import Base.MvBytes.\n\n")
	w.WriteString("Inductive sw_kind := AssignGlobal | IncDecGlobal | AppendGlobal | ReceiverWrite.\n")
	w.WriteString("Record shared_write := { sw_file : bytes; sw_line : Z; sw_kind_of : sw_kind; sw_name : bytes }.\n\n")
	w.WriteString("Definition shared_writes : list shared_write := [\n")
	kinds := map[string]string{"assign-global": "AssignGlobal", "incdec-global": "IncDecGlobal", "append-global": "AppendGlobal", "receiver-write": "ReceiverWrite"}
	for i, s := range all {
		sep := ";"
		if i == len(all)-1 {
			sep = ""
		}
		fmt.Fprintf(&w, "  {| sw_file := %s; sw_line := %d; sw_kind_of := %s; sw_name := %s |}%s (* %s:%d %s %s *)\n", coqBytes(s.file), s.line, kinds[s.kind], coqBytes(s.name), sep, s.file, s.line, s.kind, safe(s.name))
	}
	w.WriteString("].\n\n")
	// lock protocol of the registry (minify.go): which functions take the write lock, which the read lock
	mf := parseFile(filepath.Join(repo, "minify.go"))
	var wl, rl []string
	for _, d := range mf.Decls {
		fd, ok := d.(*ast.FuncDecl)
		if !ok || fd.Body == nil {
			continue
		}
		hasW, hasR := false, false
		ast.Inspect(fd.Body, func(n ast.Node) bool {
			if ce, ok := n.(*ast.CallExpr); ok {
				if sel, ok := ce.Fun.(*ast.SelectorExpr); ok {
					if inner, ok := sel.X.(*ast.SelectorExpr); ok && inner.Sel.Name == "mutex" {
						switch sel.Sel.Name {
						case "Lock":
							hasW = true
						case "RLock":
							hasR = true
						}
					}
				}
			}
			return true
		})
		if hasW {
			wl = append(wl, fd.Name.Name)
		}
		if hasR {
			rl = append(rl, fd.Name.Name)
		}
	}
	sort.Strings(wl)
	sort.Strings(rl)
	emitNames := func(name string, l []string) {
		fmt.Fprintf(&w, "Definition %s : list bytes := [", name)
		for i, n := range l {
			if i > 0 {
				w.WriteString("; ")
			}
			fmt.Fprintf(&w, "%s (* %s *)", coqBytes(n), n)
		}
		w.WriteString("].\n")
	}
	emitNames("registry_write_lock_funcs", wl)
	emitNames("registry_read_lock_funcs", rl)
	writeIfChanged(filepath.Join(out, "SharedWrites_gen.v"), w.String())
	_ = os.Stderr
}
