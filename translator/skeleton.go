package main

func genSkeletons(repo, out string) {}
